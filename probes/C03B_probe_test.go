package main

import (
	"io"
	"testing"
	"time"

	lang "github.com/alligator/jqawk/src"
)

// chanWriterC03B forwards everything written to it over a channel, so the
// test can observe output at the moment the interpreter produces it.
type chanWriterC03B struct {
	ch chan string
}

func (w chanWriterC03B) Write(p []byte) (int, error) {
	w.ch <- string(p)
	return len(p), nil
}

// TestDemoC03B checks the "incremental" clause of the JSON value stream
// property: once a value and at most one following byte (whitespace suffices)
// have been read, the value is fully processed and its output written without
// waiting for any later input to arrive.
//
// The stream is delivered through a pipe that blocks between values, like an
// interactive producer on stdin. The first value is a one digit scalar, so the
// value plus its terminating newline is only two bytes long.
func TestDemoC03B(t *testing.T) {
	pr, pw := io.Pipe()
	out := chanWriterC03B{ch: make(chan string, 64)}
	done := make(chan error, 1)

	go func() {
		files := []lang.InputFile{{Name: "<demoC03B>", Reader: pr}}
		_, err := lang.EvalProgram("{ print }", files, nil, out, false)
		done <- err
	}()

	// collect output until it equals expected, or the timeout expires
	expectOutput := func(expected string) bool {
		got := ""
		timeout := time.After(2 * time.Second)
		for got != expected {
			select {
			case s := <-out.ch:
				got += s
			case <-timeout:
				t.Errorf("expected output %q while the producer is idle, got %q after 2s", expected, got)
				return false
			}
		}
		return true
	}

	send := func(s string) {
		if _, err := io.WriteString(pw, s); err != nil {
			t.Fatalf("error writing to pipe: %s", err)
		}
	}

	// a complete value and one following byte, then the producer goes quiet
	send("7\n")
	ok := expectOutput("7\n")

	if ok {
		// the same must hold for the later values of the stream
		send("[8, 9]\n")
		ok = expectOutput("8\n9\n")
	}
	if ok {
		send("{\"a\": 1} ")
		ok = expectOutput("{\"a\": 1}\n")
	}

	// end of input, the interpreter must finish cleanly
	pw.Close()
	select {
	case err := <-done:
		if err != nil {
			t.Errorf("unexpected error: %#v", err)
		}
	case <-time.After(2 * time.Second):
		t.Fatalf("EvalProgram did not return after end of input")
	}
}
