package main

import (
	"strings"
	"testing"

	lang "github.com/alligator/jqawk/src"
)

// floor, ceil and round must work on every number, including the whole
// numbers the interpreter itself produces (modulo results, lengths, loop
// indices): the mathematical floor/ceiling/nearest integer of an integer is
// that integer.
func TestDemoC16E(t *testing.T) {
	cases := []struct {
		name, prog, json, want string
	}{
		{
			name: "modulo result",
			prog: `BEGIN { r = 7 % 4; print r.floor(), r.ceil(), r.round() }`,
			want: "3 3 3\n",
		},
		{
			name: "length result",
			prog: `BEGIN { print "héllo".length().round(), [1, 2, 3].length().floor(), {"a": 1}.length().ceil() }`,
			want: "6 3 1\n",
		},
		{
			name: "loop index",
			prog: `{ for (x, i in $) print i.ceil(), x.floor() }`,
			json: `[[1.5, 2.5]]`,
			want: "0 1\n1 2\n",
		},
		{
			name: "literal and arithmetic still fine",
			prog: `BEGIN { a = 2.5; print a.floor(), (a * 2).ceil(), (7).round() }`,
			want: "2 5 7\n",
		},
	}

	for _, tc := range cases {
		var files []lang.InputFile
		if tc.json != "" {
			files = append(files, lang.InputFile{Name: "<demo>", Reader: strings.NewReader(tc.json)})
		}
		var sb strings.Builder
		_, err := lang.EvalProgram(tc.prog, files, nil, &sb, false)
		if err != nil {
			t.Errorf("%s: unexpected error: %v", tc.name, err)
			continue
		}
		if sb.String() != tc.want {
			t.Errorf("%s: got %q, want %q", tc.name, sb.String(), tc.want)
		}
	}
}
