package main

import (
	"strings"
	"testing"

	lang "github.com/alligator/jqawk/src"
)

// for-in over an object visits every key exactly once, in sorted order, and
// binds the matching value. The empty string is a key like any other.
func TestDemoC07J(t *testing.T) {
	run := func(prog string, json string) string {
		t.Helper()
		var sb strings.Builder
		files := []lang.InputFile{{Name: "demo.json", Reader: strings.NewReader(json)}}
		_, err := lang.EvalProgram(prog, files, nil, &sb, false)
		if err != nil {
			t.Fatalf("unexpected error: %v (output so far %q)", err, sb.String())
		}
		return sb.String()
	}

	// 1. an object from the input that has an empty key among others
	prog := `
		{
			n = 0
			for (k, v in $) {
				n++
				print "[" + k + "]", v
			}
			print "visited", n, "of", $.length()
		}
	`
	got := run(prog, `{"b": 2, "": 0, "a": 1}`)
	want := "[] 0\n[a] 1\n[b] 2\nvisited 3 of 3\n"
	if got != want {
		t.Fatalf("for-in over an input object with an empty key:\nexpected %q\ngot      %q", want, got)
	}

	// 2. the same with an object built by the program, nested in another loop
	// and left early with break: the break must be reached on the second key
	prog = `
		BEGIN {
			o = {}
			o[""] = "empty"
			o["x"] = "ex"
			o["y"] = "why"
			for (round = 0; round < 2; round++) {
				seen = 0
				for (k in o) {
					seen++
					if (seen == 2) {
						print round, "second key", "[" + k + "]"
						break
					}
				}
			}
		}
	`
	got = run(prog, `[]`)
	want = "0 second key [x]\n1 second key [x]\n"
	if got != want {
		t.Fatalf("for-in over a built object with an empty key:\nexpected %q\ngot      %q", want, got)
	}

	// 3. objects without an empty key, and the empty object, for reference
	prog = `
		BEGIN {
			for (k, v in { b: 2, a: 1 }) print k, v
			for (k in {}) print "never"
			print "done"
		}
	`
	got = run(prog, `[]`)
	want = "a 1\nb 2\ndone\n"
	if got != want {
		t.Fatalf("for-in over ordinary objects:\nexpected %q\ngot      %q", want, got)
	}
}
