package main

import (
	"encoding/json"
	"reflect"
	"strings"
	"testing"

	lang "github.com/alligator/jqawk/src"
)

// json(v) returns v converted to (pretty-printed) JSON text: decoding that text
// must give back the same JSON value. An array stays an array however many
// items it holds, including none.
func TestDemoC16F(t *testing.T) {
	cases := []struct {
		name, prog, input string
		want              interface{}
	}{
		{
			name: "non-empty array",
			prog: `BEGIN { print json([1, "a", [2]]) }`,
			want: []interface{}{1.0, "a", []interface{}{2.0}},
		},
		{
			name: "empty array literal",
			prog: `BEGIN { print json([]) }`,
			want: []interface{}{},
		},
		{
			name: "empty array inside an object",
			prog: `BEGIN { o = {"items": [], "n": null, "s": ""}; print json(o) }`,
			want: map[string]interface{}{"items": []interface{}{}, "n": nil, "s": ""},
		},
		{
			name: "array emptied by pop",
			prog: `BEGIN { a = [1]; a.pop(); print json([a, {}]) }`,
			want: []interface{}{[]interface{}{}, map[string]interface{}{}},
		},
		{
			name: "split of the empty string on the empty separator",
			prog: `BEGIN { print json("".split("")) }`,
			want: []interface{}{},
		},
		{
			name:  "empty array from the input",
			prog:  `{ print json($.tags) }`,
			input: `[{"tags": []}]`,
			want:  []interface{}{},
		},
	}

	for _, tc := range cases {
		var files []lang.InputFile
		if tc.input != "" {
			files = append(files, lang.InputFile{Name: "<demo>", Reader: strings.NewReader(tc.input)})
		}
		var sb strings.Builder
		_, err := lang.EvalProgram(tc.prog, files, nil, &sb, false)
		if err != nil {
			t.Errorf("%s: unexpected error: %v", tc.name, err)
			continue
		}
		var got interface{}
		if err := json.Unmarshal([]byte(sb.String()), &got); err != nil {
			t.Errorf("%s: json() output %q is not JSON: %v", tc.name, sb.String(), err)
			continue
		}
		if !reflect.DeepEqual(got, tc.want) {
			t.Errorf("%s: json() printed %q, which decodes to %#v, want %#v", tc.name, sb.String(), got, tc.want)
		}
	}
}
