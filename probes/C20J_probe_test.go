package main

import (
	"fmt"
	"io"
	"os"
	"os/exec"
	"runtime/debug"
	"strconv"
	"strings"
	"testing"

	lang "github.com/alligator/jqawk/src"
)

// Property C20, recursion clause: runaway recursion of ANY shape ends in an
// ordinary runtime error; it must not exhaust the (Go) stack of the process.
//
// The shape used here is a direct recursion whose recursive call sits deep
// inside an expression of the function body:
//
//	function f(n) { return 1+(1+(1+( ... f(n+1) ... ))) }     (1000 nested groups)
//
// Every call level therefore costs about 1000 levels of evaluator recursion on
// the Go stack. An overflowing Go stack is a fatal, unrecoverable error, so the
// interpreter is run in a child process (this test binary re-executed), with the
// maximum stack lowered from 1 GB to 600 MB to keep the experiment cheap. The
// interpreter needs well under that to reach its own limit and refuse.
func TestDemoC20J(t *testing.T) {
	const nesting = 1000
	prog := "function f(n) { return " + strings.Repeat("1+(", nesting) + "f(n+1)" + strings.Repeat(")", nesting) + " }\n" +
		"BEGIN { print 'before'; print f(0); print 'after' }"

	if os.Getenv("C20J_DEMO_CHILD") == "1" {
		debug.SetMaxStack(600 << 20)
		var sb strings.Builder
		_, err := lang.EvalProgram(prog, nil, nil, &sb, false)
		rtErr, isRuntimeError := err.(lang.RuntimeError)
		fmt.Printf("C20J-RESULT runtimeError=%v message=%q output=%q\n", isRuntimeError, rtErr.Message, sb.String())
		os.Exit(0)
	}

	// sanity, in process: moderate recursion with a moderately nested call site works
	{
		k, depth := 20, 1000
		p := "function g(n) { if (n == 0) { return 0 } return " + strings.Repeat("1+(", k) + "g(n-1)" + strings.Repeat(")", k) + " }\n" +
			"BEGIN { print g(" + strconv.Itoa(depth) + ") }"
		var sb strings.Builder
		if _, err := lang.EvalProgram(p, nil, nil, &sb, false); err != nil || sb.String() != strconv.Itoa(k*depth)+"\n" {
			t.Fatalf("recursion %d deep, call nested %d deep: out=%q err=%v", depth, k, sb.String(), err)
		}
	}
	// sanity, in process: plain runaway recursion is refused
	if _, err := lang.EvalProgram("function h(n) { return h(n+1) }\nBEGIN { h(0) }", nil, nil, io.Discard, false); err == nil {
		t.Fatalf("plain runaway recursion was not refused")
	}

	cmd := exec.Command(os.Args[0], "-test.run=^TestDemoC20J$", "-test.count=1")
	cmd.Env = append(os.Environ(), "C20J_DEMO_CHILD=1")
	outBytes, runErr := cmd.CombinedOutput()
	out := string(outBytes)

	var resultLine string
	for _, line := range strings.Split(out, "\n") {
		if strings.HasPrefix(line, "C20J-RESULT ") {
			resultLine = line
		}
	}

	if runErr != nil || resultLine == "" {
		head := out
		if len(head) > 600 {
			head = head[:600] + " ..."
		}
		t.Fatalf("runaway recursion with the call nested %d deep in the body did not end in an error, the interpreter process died (%v):\n%s", nesting, runErr, head)
	}
	if !strings.Contains(resultLine, "runtimeError=true") {
		t.Fatalf("expected a runtime error, got: %s", resultLine)
	}
	if !strings.Contains(resultLine, `output="before\n"`) {
		t.Fatalf("prior output should be kept and nothing else printed, got: %s", resultLine)
	}
	t.Log(resultLine)
}
