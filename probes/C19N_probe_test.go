package main

import (
	"bytes"
	"strings"
	"testing"

	lang "github.com/alligator/jqawk/src"
)

// A literal pattern matches exactly when subject == literal. A variable that
// was never assigned is equal to nothing (u == 0, u == false, u == '' and
// u == 'abc' are all false), so a literal pattern can never select it, neither
// as the subject itself nor as an element matched by an array pattern.
func TestDemoC19N(t *testing.T) {
	run := func(prog string, json string) string {
		t.Helper()
		var out bytes.Buffer
		var files []lang.InputFile
		if json != "" {
			files = []lang.InputFile{{Name: "in.json", Reader: strings.NewReader(json)}}
		}
		if _, err := lang.EvalProgram(prog, files, nil, &out, false); err != nil {
			t.Fatalf("unexpected error: %v\nprogram: %s", err, prog)
		}
		return out.String()
	}

	cases := []struct {
		name, prog, json, want string
	}{
		{
			name: "== on an unset variable (reference behaviour)",
			prog: `BEGIN { print u == 0, u == false, u == '', u == 'abc', u == null }`,
			want: "false false false false false\n",
		},
		{
			name: "unset subject, numeric literal",
			prog: `BEGIN { print match (u) { 0 => 'zero', null => 'null', x => 'catch-all' } }`,
			want: "catch-all\n",
		},
		{
			name: "unset subject, string and bool literals, no catch-all",
			prog: `BEGIN { print match (u) { 'abc', '' => 'string', false => 'false' } }`,
			want: "null\n",
		},
		{
			// total is unset while the first record is processed
			name: "running total, first record",
			prog: `
				{
					print match (total) {
						0 => 'nothing yet',
						t => 'so far ' + t,
					}
					total += $
				}`,
			json: `[5, 0, 7]`,
			want: "so far \nso far 5\nso far 5\n",
		},
		{
			name: "unset element under an array pattern",
			prog: `BEGIN { print match ([1, u]) { [1, 0] => 'literal', [a, b] => 'names' } }`,
			want: "names\n",
		},
	}

	for _, tc := range cases {
		if got := run(tc.prog, tc.json); got != tc.want {
			t.Errorf("%s:\n got  %q\n want %q", tc.name, got, tc.want)
		}
	}
}
