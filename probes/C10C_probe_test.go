package main

import (
	"strings"
	"testing"

	lang "github.com/alligator/jqawk/src"
)

// runC10C runs one program over one input in-process and returns everything the
// property talks about: stdout, the JSON output and the error outcome.
func runC10C(prog string, input string) string {
	var sb strings.Builder
	files := []lang.InputFile{{Name: "<demo>", Reader: strings.NewReader(input)}}
	ev, err := lang.EvalProgram(prog, files, nil, &sb, false)
	out := "stdout=" + sb.String()
	if err != nil {
		return out + "|err=" + err.Error()
	}
	js, jerr := ev.GetRootJson()
	if jerr != nil {
		return out + "|jsonerr=" + jerr.Error()
	}
	return out + "|json=" + js
}

// The result of a run must not depend on which unrelated programs were run
// earlier in the same process.
func TestDemoC10C(t *testing.T) {
	const subject = `{ print $.price.round(), $.price.floor(), $.price.ceil() }`
	const input = `[{"price": 2.5}, {"price": 7.25}]`

	before := runC10C(subject, input)
	if !strings.HasPrefix(before, "stdout=3 2 3\n7 7 8\n|json=") {
		t.Fatalf("unexpected first result: %q", before)
	}

	// an unrelated run: a script that (pointlessly, but legally) stores
	// something under the name of a number method on one of its own numbers
	// (since fix 956d942 in the verified tree such a store is a runtime error; whatever the outcome of
	// the unrelated run, it must not influence the run after it)
	_ = runC10C(`BEGIN { n = 1; n.round = "nearest"; n.floor = 0; print n }`, `[]`)

	after := runC10C(subject, input)
	if after != before {
		t.Fatalf("same program, selectors and input gave a different result after an unrelated run\nbefore: %q\nafter:  %q", before, after)
	}
}
