package main

import (
	"math"
	"strconv"
	"strings"
	"testing"

	lang "github.com/alligator/jqawk/src"
)

// Property clause: "numbers in plain positional decimal, without exponent,
// that reads back as the identical double" -- for every finite double,
// including negative zero and integers beyond 2^53.
//
// Every number below is printed once at top level and once nested in an
// array; each rendering is read back with strconv.ParseFloat and must have
// exactly the bits of the double that went in.
func TestDemoC17B(t *testing.T) {
	negZero := math.Copysign(0, -1)
	two63 := math.Ldexp(1, 63)

	cases := []struct {
		name string
		prog string
		json string
		want float64
	}{
		// ordinary values, fine with and without the change
		{"small integer", `BEGIN { x = 42; print x; print [x] }`, `[]`, 42},
		{"fraction", `BEGIN { x = 0.1; print x; print [x] }`, `[]`, 0.1},
		{"integer above 2^53", `BEGIN { x = 9007199254740994; print x; print [x] }`, `[]`, 9007199254740994},
		{"-2^63", `BEGIN { x = -9223372036854775808; print x; print [x] }`, `[]`, -two63},
		{"2^64", `BEGIN { x = 18446744073709551616; print x; print [x] }`, `[]`, math.Ldexp(1, 64)},

		// negative zero
		{"negative zero literal", `BEGIN { x = -0; print x; print [x] }`, `[]`, negZero},
		{"negative zero computed", `BEGIN { x = 0 * -1; print x; print [x] }`, `[]`, negZero},
		{"negative zero from input", `{ print $; print [$] }`, `[-0.0]`, negZero},

		// exactly 2^63, the first integer an int64 cannot hold
		{"2^63 literal", `BEGIN { x = 9223372036854775808; print x; print [x] }`, `[]`, two63},
		{"2^63 computed", `BEGIN { x = 4611686018427387904 * 2; print x; print [x] }`, `[]`, two63},
		{"2^63 from input", `{ print $; print [$] }`, `[9223372036854775808]`, two63},
	}

	for _, tc := range cases {
		var sb strings.Builder
		files := []lang.InputFile{{Name: "<demo>", Reader: strings.NewReader(tc.json)}}
		if _, err := lang.EvalProgram(tc.prog, files, nil, &sb, false); err != nil {
			t.Fatalf("%s: unexpected error: %v", tc.name, err)
		}

		lines := strings.Split(strings.TrimSuffix(sb.String(), "\n"), "\n")
		if len(lines) != 2 {
			t.Fatalf("%s: expected 2 lines of output, got %q", tc.name, sb.String())
		}
		top := lines[0]
		nested := lines[1]
		if !strings.HasPrefix(nested, "[") || !strings.HasSuffix(nested, "]") {
			t.Fatalf("%s: nested rendering is not an array: %q", tc.name, nested)
		}
		nested = nested[1 : len(nested)-1]

		for _, text := range []string{top, nested} {
			if strings.ContainsAny(text, "eE") {
				t.Errorf("%s: rendering %q uses an exponent", tc.name, text)
				continue
			}
			got, err := strconv.ParseFloat(text, 64)
			if err != nil {
				t.Errorf("%s: rendering %q does not read back as a number: %v", tc.name, text, err)
				continue
			}
			if math.Float64bits(got) != math.Float64bits(tc.want) {
				t.Errorf("%s: rendering %q reads back as %v (bits %#016x), want %v (bits %#016x)",
					tc.name, text, got, math.Float64bits(got), tc.want, math.Float64bits(tc.want))
			}
		}
	}
}
