package main

import (
	"strings"
	"testing"

	lang "github.com/alligator/jqawk/src"
)

// printf must emit exactly the expanded format: %% becomes one percent sign,
// and percent signs that arrive through arguments are copied as they are.
func TestDemoC18E(t *testing.T) {
	cases := []struct {
		prog     string
		json     string
		expected string
	}{
		// %% directive followed by more text
		{`BEGIN { printf("%s is 100%% done\n", "job") }`, ``, "job is 100% done\n"},
		// %% as the very last thing written
		{`BEGIN { printf("%f%%", 42) }`, ``, "42%"},
		// percent signs inside a %s argument
		{`{ printf("[%s]", $.label) }`, `[{"label": "50% sold, %d left"}]`, "[50% sold, %d left]"},
		// percent signs inside a %v argument, with a width
		{`{ printf("%-12v|", $) }`, `[["%s"]]`, "[\"%s\"]      |"},
	}

	for _, tc := range cases {
		var sb strings.Builder
		files := []lang.InputFile{}
		if tc.json != "" {
			files = append(files, lang.InputFile{Name: "<test>", Reader: strings.NewReader(tc.json)})
		}
		_, err := lang.EvalProgram(tc.prog, files, nil, &sb, false)
		if err != nil {
			t.Fatalf("program %q: unexpected error: %v", tc.prog, err)
		}
		if sb.String() != tc.expected {
			t.Fatalf("program %q:\nexpected %q\n     got %q", tc.prog, tc.expected, sb.String())
		}
	}
}
