package main

import (
	"strings"
	"testing"

	lang "github.com/alligator/jqawk/src"
)

// Property C06: call, member and index bind tighter than the prefix operators,
// so  -2.5.floor()  means  -((2.5).floor())  and never  (-2.5).floor().
// Every unparenthesised expression must print what its fully parenthesised
// form prints.
func TestDemoC06K(t *testing.T) {
	run := func(expr string) string {
		t.Helper()
		var sb strings.Builder
		_, err := lang.EvalProgram("BEGIN { print "+expr+" }", nil, nil, &sb, false)
		if err != nil {
			t.Fatalf("%s: unexpected error: %v", expr, err)
		}
		return sb.String()
	}

	cases := []struct {
		plain  string // written without redundant parentheses
		parens string // its fully parenthesised form under the grammar
		want   string
	}{
		{"-2.5.floor()", "-((2.5).floor())", "-2\n"},
		{"-2.5.ceil()", "-((2.5).ceil())", "-3\n"},
		{"1 - -7.25.floor()", "1 - (-((7.25).floor()))", "8\n"},
		{"[-0.5.ceil()][0] + 10", "([-((0.5).ceil())][0]) + 10", "9\n"},
		// same operand shapes that do not involve a suffix: unaffected either way
		{"-2.5 + 1", "(-(2.5)) + 1", "-1.5\n"},
		{"- 2.5.floor()", "-((2.5).floor())", "-2\n"},
	}

	for _, c := range cases {
		plain := run(c.plain)
		parens := run(c.parens)
		if parens != c.want {
			t.Fatalf("%s: parenthesised form printed %q, expected %q", c.parens, parens, c.want)
		}
		if plain != parens {
			t.Errorf("%s printed %q but its fully parenthesised form %s printed %q",
				c.plain, plain, c.parens, parens)
		}
	}
}
