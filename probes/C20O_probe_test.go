package main

import (
	"strings"
	"testing"

	lang "github.com/alligator/jqawk/src"
)

// Runaway nesting has to end in an ordinary runtime error, whatever its shape.
// The call depth limit (4096 frames) does not bound the interpreter's own
// stack by itself: a frame costs as much stack as its call sits deep inside
// the function body. So the evaluator also bounds the total nesting of the
// evaluation (calls included). Here every call sits 200 unary operators deep
// in the body; 1000 calls in flight are 200 000 nested evaluations, twice what
// the evaluator allows, and must be refused with a runtime error (prior output
// kept) instead of being carried out on the Go stack.
func TestDemoC20O(t *testing.T) {
	const unary = 200 // an even number, so the value is unchanged
	body := strings.Repeat("-(", unary) + "f(n - 1)" + strings.Repeat(")", unary)
	fn := "function f(n) { if (n == 0) return 0; return 1 + " + body + " }\n"

	run := func(prog string) (string, error) {
		var sb strings.Builder
		_, err := lang.EvalProgram(prog, nil, nil, &sb, false)
		return sb.String(), err
	}

	// well inside every limit: 100 calls, 20 000 nested evaluations
	out, err := run(fn + `BEGIN { print "start"; print f(100) }`)
	if err != nil {
		t.Fatalf("f(100): unexpected error %v", err)
	}
	if out != "start\n100\n" {
		t.Fatalf("f(100): unexpected output %q", out)
	}

	// 1000 calls, 200 000 nested evaluations: refused
	out, err = run(fn + `BEGIN { print "start"; print f(1000); print "not reached" }`)
	if err == nil {
		t.Fatalf("evaluation nested 200000 deep was carried out instead of being refused, output %q", out)
	}
	rtErr, ok := err.(lang.RuntimeError)
	if !ok {
		t.Fatalf("expected a runtime error, got %T: %v", err, err)
	}
	if !strings.Contains(rtErr.Message, "nested too deeply") && !strings.Contains(rtErr.Message, "depth limit") {
		t.Fatalf("expected a nesting/depth limit error, got %q", rtErr.Message)
	}
	if out != "start\n" {
		t.Fatalf("output before the error should be kept and nothing else printed, got %q", out)
	}
}
