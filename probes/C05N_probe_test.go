package main

import (
	"strings"
	"testing"

	lang "github.com/alligator/jqawk/src"
)

// C05, clause "Comparisons order two strings bytewise, ... otherwise compare
// numeric coercions (booleans 0/1, numeric strings by value, anything else
// 0)": only a pair of strings is ordered as text. A regex or a function
// coerces to 0, whatever text it carries internally (the pattern of a regex,
// the name of a method looked up on a value).
func TestDemoC05N(t *testing.T) {
	run := func(prog string) string {
		t.Helper()
		var sb strings.Builder
		if _, err := lang.EvalProgram(prog, nil, nil, &sb, false); err != nil {
			t.Fatalf("unexpected error for %q: %v", prog, err)
		}
		return sb.String()
	}

	// regex against regex: 0 against 0
	got := run(`BEGIN { print /a/ == /b/, /a/ != /b/, /a/ < /b/, /b/ > /a/, /a/ >= /b/ }`)
	if want := "true false false false true\n"; got != want {
		t.Errorf("regex/regex: got %q, want %q", got, want)
	}

	// regex against string: 0 against num(string)
	got = run(`BEGIN { r = /9/; s = "10"; print r < s, s > r, r == s, "abc" != /x/, "-1" < /x/ }`)
	if want := "true true false false true\n"; got != want {
		t.Errorf("regex/string: got %q, want %q", got, want)
	}

	// methods are functions: 0, also against strings and each other
	got = run(`BEGIN { a = [1]; print a.push == a.pop, "a" < a.push, a.length == "", "abc".upper > "5", a.push != /push/ }`)
	if want := "true false true false false\n"; got != want {
		t.Errorf("method operands: got %q, want %q", got, want)
	}
}
