package main

import (
	"strings"
	"testing"

	lang "github.com/alligator/jqawk/src"
)

// TestDemoC14A checks that a root selector (-r E) behaves as
// `BEGINFILE { $ = E }` and that selectors are applied per decoded JSON value,
// in order, when the input holds more than one JSON value (a jsonl stream, or
// several files).
func TestDemoC14A(t *testing.T) {
	type input struct {
		name string
		text string
	}

	run := func(prog string, selectors []string, inputs []input) (string, string, error) {
		files := make([]lang.InputFile, 0)
		for _, in := range inputs {
			files = append(files, lang.InputFile{Name: in.name, Reader: strings.NewReader(in.text)})
		}
		var sb strings.Builder
		ev, err := lang.EvalProgram(prog, files, selectors, &sb, false)
		if err != nil {
			return sb.String(), "", err
		}
		j, err := ev.GetRootJson()
		return sb.String(), j, err
	}

	const body = `{ print $file, $.n; $.n++; total += $.n } END { print "total", total }`

	cases := []struct {
		name     string
		inputs   []input
		expected string
		json     string
	}{
		{
			name: "single value",
			inputs: []input{
				{"a.json", `{"items": [{"n": 1}, {"n": 2}]}`},
			},
			expected: "a.json 1\na.json 2\ntotal 5\n",
			json:     "[\n  {\n    \"n\": 2\n  },\n  {\n    \"n\": 3\n  }\n]",
		},
		{
			name: "jsonl stream in one file",
			inputs: []input{
				{"a.json", "{\"items\": [{\"n\": 1}, {\"n\": 2}]}\n{\"items\": [{\"n\": 10}]}\n"},
			},
			expected: "a.json 1\na.json 2\na.json 10\ntotal 16\n",
			json:     "[\n  {\n    \"n\": 11\n  }\n]",
		},
		{
			name: "two files",
			inputs: []input{
				{"a.json", `{"items": [{"n": 1}, {"n": 2}]}`},
				{"b.json", `{"items": [{"n": 10}]}`},
			},
			expected: "a.json 1\na.json 2\nb.json 10\ntotal 16\n",
			json:     "[\n  {\n    \"n\": 11\n  }\n]",
		},
	}

	for _, tc := range cases {
		t.Run(tc.name, func(t *testing.T) {
			selOut, selJson, selErr := run(body, []string{"$.items"}, tc.inputs)
			refOut, refJson, refErr := run("BEGINFILE { $ = $.items } "+body, nil, tc.inputs)

			if selErr != nil || refErr != nil {
				t.Fatalf("unexpected error: selector run %v, BEGINFILE run %v", selErr, refErr)
			}
			if selOut != refOut {
				t.Errorf("-r output differs from BEGINFILE { $ = E }\n-r:        %q\nBEGINFILE: %q", selOut, refOut)
			}
			if selJson != refJson {
				t.Errorf("-r root JSON differs from BEGINFILE { $ = E }\n-r:        %q\nBEGINFILE: %q", selJson, refJson)
			}
			if selOut != tc.expected {
				t.Errorf("-r output\nexpected %q\ngot      %q", tc.expected, selOut)
			}
			if selJson != tc.json {
				t.Errorf("-r root JSON\nexpected %q\ngot      %q", tc.json, selJson)
			}
		})
	}

	// several selectors over a stream: each value contributes its selectors in
	// the order given, once.
	t.Run("two selectors over a stream", func(t *testing.T) {
		out, _, err := run("{ print }", []string{"$.a", "$.b"}, []input{
			{"<stdin>", "{\"a\": [1], \"b\": [2]}\n{\"a\": [3], \"b\": [4]}\n"},
		})
		if err != nil {
			t.Fatal(err)
		}
		if out != "1\n2\n3\n4\n" {
			t.Errorf("expected %q\ngot %q", "1\n2\n3\n4\n", out)
		}
	})
}
