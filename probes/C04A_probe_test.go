package main

import (
	"encoding/json"
	"io"
	"reflect"
	"strings"
	"testing"

	lang "github.com/alligator/jqawk/src"
)

// Round trip of documents that contain empty arrays: the JSON written for -o
// (Evaluator.GetRootJson) and the text returned by json() must parse back to
// the value that was read.
func TestDemoC04A(t *testing.T) {
	docs := []string{
		`{"name": "x", "tags": [], "meta": {}, "rows": [[1, 2], [], [[]]]}`,
		`[]`,
		`[[], {"a": []}, [1, []]]`,
	}

	for _, doc := range docs {
		var want interface{}
		if err := json.Unmarshal([]byte(doc), &want); err != nil {
			t.Fatalf("bad test document %q: %v", doc, err)
		}

		// -o path: a program that does not modify the document
		files := []lang.InputFile{{Name: "<demo>", Reader: strings.NewReader(doc)}}
		ev, err := lang.EvalProgram("{ n++ }", files, nil, io.Discard, false)
		if err != nil {
			t.Fatalf("%q: unexpected error: %v", doc, err)
		}
		out, err := ev.GetRootJson()
		if err != nil {
			t.Fatalf("%q: GetRootJson: %v", doc, err)
		}
		var got interface{}
		if err := json.Unmarshal([]byte(out), &got); err != nil {
			t.Fatalf("%q: -o output is not valid JSON: %v\n%s", doc, err, out)
		}
		if !reflect.DeepEqual(want, got) {
			t.Errorf("-o output differs from input\ninput:  %s\noutput: %s", doc, out)
		}

		// json() path: serialise the whole document from an END-of-file rule
		var sb strings.Builder
		files = []lang.InputFile{{Name: "<demo>", Reader: strings.NewReader(doc)}}
		_, err = lang.EvalProgram("ENDFILE { print json($) }", files, nil, &sb, false)
		if err != nil {
			t.Fatalf("%q: unexpected error: %v", doc, err)
		}
		var got2 interface{}
		if err := json.Unmarshal([]byte(sb.String()), &got2); err != nil {
			t.Fatalf("%q: json() output is not valid JSON: %v\n%s", doc, err, sb.String())
		}
		if !reflect.DeepEqual(want, got2) {
			t.Errorf("json($) differs from input\ninput:  %s\noutput: %s", doc, sb.String())
		}
	}

	// an empty array built by the program
	var sb strings.Builder
	_, err := lang.EvalProgram(`BEGIN { a = []; o.list = a; print json(a); print json(o) }`, nil, nil, &sb, false)
	if err != nil {
		t.Fatalf("unexpected error: %v", err)
	}
	dec := json.NewDecoder(strings.NewReader(sb.String()))
	var first, second interface{}
	if err := dec.Decode(&first); err != nil {
		t.Fatalf("json([]) is not valid JSON: %v", err)
	}
	if err := dec.Decode(&second); err != nil {
		t.Fatalf("json({list: []}) is not valid JSON: %v", err)
	}
	if !reflect.DeepEqual(first, []interface{}{}) {
		t.Errorf("json([]) parsed to %#v, want an empty array", first)
	}
	if !reflect.DeepEqual(second, map[string]interface{}{"list": []interface{}{}}) {
		t.Errorf("json({list: []}) parsed to %#v, want {\"list\": []}", second)
	}
}
