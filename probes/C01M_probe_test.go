package main

import (
	"fmt"
	"strings"
	"testing"

	lang "github.com/alligator/jqawk/src"
)

// runs a program and reports how the run ended: its output, the error it
// returned (if any) and the value of a panic that escaped EvalProgram (if any)
func demoC01MRun(prog string, input string) (out string, err error, panicked interface{}) {
	defer func() {
		if r := recover(); r != nil {
			panicked = r
		}
	}()
	var sb strings.Builder
	files := []lang.InputFile{{Name: "<demo>", Reader: strings.NewReader(input)}}
	_, err = lang.EvalProgram(prog, files, nil, &sb, false)
	return sb.String(), err, nil
}

// Every run ends in success or in one of the three reported error kinds,
// never in a panic. The programs below collect function values in an array
// (literal, push, user function argument) and then sort that array.
func TestDemoC01M(t *testing.T) {
	progs := []string{
		// a table of converters, sorted before use
		`BEGIN { convs = [num, json]; print convs.sort().length() }`,
		// the same through push
		`BEGIN { hooks = []; hooks.push(printf); hooks.push('b'); print hooks.sort() }`,
		// a user function handed on as an argument and stored by the callee
		`function id(x) { return x }
		 function keep(list, f) { list.push(f); return list }
		 { print keep(['z', 'a'], id).sort() }`,
	}

	for _, prog := range progs {
		out, err, panicked := demoC01MRun(prog, `[1]`)
		if panicked != nil {
			t.Fatalf("program %q\nended in a panic instead of success or a reported error: %v", prog, panicked)
		}
		if err != nil {
			switch err.(type) {
			case lang.SyntaxError, lang.RuntimeError, lang.JsonError:
				// one of the three reported kinds: fine
			default:
				t.Fatalf("program %q\nended in an error that is none of the three reported kinds: %#v", prog, err)
			}
		}
		_ = fmt.Sprint(out)
	}
}
