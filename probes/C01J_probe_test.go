package main

import (
	"fmt"
	"io"
	"strings"
	"testing"

	lang "github.com/alligator/jqawk/src"
)

// runs a program (with optional root selectors) and reports how the run ended:
// "" for success or one of the three reported error kinds, otherwise a
// description of the panic or of the foreign error
func demoC01JRun(prog string, selectors []string, json string) (outcome string) {
	defer func() {
		if r := recover(); r != nil {
			outcome = fmt.Sprintf("panic: %v", r)
		}
	}()

	files := []lang.InputFile{{Name: "<demo>", Reader: strings.NewReader(json)}}
	_, err := lang.EvalProgram(prog, files, selectors, io.Discard, false)
	switch err.(type) {
	case nil, lang.SyntaxError, lang.RuntimeError, lang.JsonError:
		return ""
	default:
		return fmt.Sprintf("error of kind %T surfaced: %q", err, err.Error())
	}
}

// A regex literal is an expression like any other, so it may be written as a
// case of a match expression, and nothing checks before the run that its text
// is a well formed regular expression. Whatever such a case means, a run that
// reaches it has to end in success or in a syntax, runtime or JSON error.
func TestDemoC01J(t *testing.T) {
	type demo struct {
		prog      string
		selectors []string
	}
	demos := []demo{
		// well formed regex cases
		{prog: `{ print match ($) { /^a/ => 'a', /b$/ => 'b', _ => '?' } }`},
		// regex cases whose text is not a regular expression
		{prog: `{ print match ($) { /(/ => 'paren', _ => 'other' } }`},
		{prog: `{ print match ($) { 1, /[a-/ => 'class', _ => 'other' } }`},
		{prog: `{ print match ([$, 1]) { [/a{2,1}/, x] => x, _ => 'other' } }`},
		{prog: `function f(v) { return match (v) { /*/ => { return 1 } } } END { print f('x') }`},
		// and the same in a root selector
		{prog: `{ print }`, selectors: []string{`match ($) { /)/ => [1], _ => [2] }`}},
	}

	for _, d := range demos {
		if outcome := demoC01JRun(d.prog, d.selectors, `["ab", "ba", 3]`); outcome != "" {
			t.Errorf("program %q selectors %q\n  %s", d.prog, d.selectors, outcome)
		}
	}
}
