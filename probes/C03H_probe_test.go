package main

import (
	"bufio"
	"flag"
	"os"
	"path/filepath"
	"syscall"
	"testing"
	"time"

	cli "github.com/alligator/jqawk/cli"
)

// An input named on the command line is consumed as a stream exactly like
// stdin: once a value (and at most one following byte) has been written to it,
// the output for that value appears without waiting for any later value or for
// the end of the input. Here the named input is a FIFO whose writer blocks
// between values.
func TestDemoC03H(t *testing.T) {
	fifo := filepath.Join(t.TempDir(), "in.fifo")
	if err := syscall.Mkfifo(fifo, 0o600); err != nil {
		t.Skipf("cannot create a fifo here: %v", err)
	}
	// O_RDWR: opening does not block, and the reading side sees no end of
	// input until this descriptor is closed
	feed, err := os.OpenFile(fifo, os.O_RDWR, 0)
	if err != nil {
		t.Fatalf("open fifo: %v", err)
	}
	feedClosed := false
	closeFeed := func() {
		if !feedClosed {
			feedClosed = true
			feed.Close()
		}
	}
	defer closeFeed()

	outR, outW, err := os.Pipe()
	if err != nil {
		t.Fatalf("pipe: %v", err)
	}

	oldArgs, oldStdout, oldFlags := os.Args, os.Stdout, flag.CommandLine
	defer func() { os.Args, os.Stdout, flag.CommandLine = oldArgs, oldStdout, oldFlags }()
	os.Args = []string{"jqawk", "BEGINFILE { sum = 0 } { sum += $ } ENDFILE { print sum }", fifo}
	flag.CommandLine = flag.NewFlagSet("jqawk", flag.ContinueOnError)
	os.Stdout = outW

	exit := make(chan int, 1)
	go func() {
		code := cli.Run("demo")
		outW.Close()
		exit <- code
	}()

	lines := make(chan string, 16)
	go func() {
		sc := bufio.NewScanner(outR)
		for sc.Scan() {
			lines <- sc.Text()
		}
		close(lines)
	}()

	finish := func() {
		closeFeed()
		select {
		case <-exit:
		case <-time.After(5 * time.Second):
		}
	}

	step := func(input, expected string) {
		t.Helper()
		if _, err := feed.WriteString(input); err != nil {
			finish()
			t.Fatalf("write to fifo: %v", err)
		}
		select {
		case got, ok := <-lines:
			if !ok || got != expected {
				finish()
				t.Fatalf("after writing %q: expected output line %q, got %q (open: %v)", input, expected, got, ok)
			}
		case <-time.After(2 * time.Second):
			finish()
			t.Fatalf("after writing %q: no output within 2s, expected %q before any later value is written", input, expected)
		}
	}

	step("[1, 2, 3]\n", "6") // an array is complete at its closing bracket
	step("[2, 3, 4]", "9")   // no following byte is needed
	step(" 7 ", "7")         // a number is complete after one following byte
	step("\n[10, 20]", "30")

	// end of input: the run ends cleanly and nothing else is written
	closeFeed()
	select {
	case code := <-exit:
		if code != 0 {
			t.Fatalf("expected exit code 0, got %d", code)
		}
	case <-time.After(5 * time.Second):
		t.Fatalf("the run did not end after the input was closed")
	}
	if extra, ok := <-lines; ok {
		t.Fatalf("unexpected extra output %q", extra)
	}
}
