package main

import (
	"strings"
	"testing"

	lang "github.com/alligator/jqawk/src"
)

// demoC18RRun evaluates a BEGIN-only program and returns what it wrote.
func demoC18RRun(t *testing.T, prog string) string {
	t.Helper()
	var sb strings.Builder
	_, err := lang.EvalProgram(prog, nil, nil, &sb, false)
	if err != nil {
		t.Fatalf("%s: unexpected error: %v", prog, err)
	}
	return sb.String()
}

// printf writes exactly the expanded format and nothing else: %% becomes one
// percent sign, and a percent sign that arrives inside an argument is written
// as it is (the result of the expansion is data, not a format).
func TestDemoC18R(t *testing.T) {
	cases := []struct {
		prog string
		want string
	}{
		// baseline: no percent sign in what is written
		{`BEGIN { printf('%s: %5f\n', 'load', 0.75) }`, "load:  0.75\n"},
		// %% is one percent sign
		{`BEGIN { printf('%f%%\n', 50) }`, "50%\n"},
		{`BEGIN { printf('%%') }`, "%"},
		{`BEGIN { printf('100%% of %s', 'it') }`, "100% of it"},
		// percent signs inside the arguments are copied through
		{`BEGIN { printf('[%s]', '%d items') }`, "[%d items]"},
		{`BEGIN { printf('%-6s|%v|', 'a%', ['%s', '%%']) }`, "a%    |[\"%s\", \"%%\"]|"},
	}
	for _, c := range cases {
		got := demoC18RRun(t, c.prog)
		if got != c.want {
			t.Errorf("%s\n  wrote %q\n  want  %q (printf must write the expanded format and nothing else)", c.prog, got, c.want)
		}
	}
}
