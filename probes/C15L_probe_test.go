package main

import (
	"strings"
	"testing"

	lang "github.com/alligator/jqawk/src"
)

// contains(v) has to agree with == applied to each element in order, for every
// kind of element and every kind of v -- including a v that is a variable that
// was never assigned (an unset value equals nothing under ==).
func TestDemoC15L(t *testing.T) {
	prog := `
function anyEqual(arr, v) {
	for (item in arr) {
		if (item == v) return true;
	}
	return false;
}

BEGIN {
	a = [3, 0, 'x', false, ''];

	# a needle that is set: contains and == agree
	print a.contains(0), anyEqual(a, 0);
	print a.contains('x'), anyEqual(a, 'x');
	print a.contains(7), anyEqual(a, 7);

	# a needle that was never assigned equals no element
	print a[1] == nope, a[2] == nope, a[3] == nope, a[4] == nope;
	print a.contains(nope), anyEqual(a, nope);

	# still true after the array has been worked on
	a.popfirst();
	a.push(0);
	print a.length(), a.contains(nope), anyEqual(a, nope);
	print a.sort().contains(nope);

	# an element that is unset equals no needle either
	b = [1];
	b.push(never);
	print b.length(), b.contains(0), anyEqual(b, 0), b.contains(1);
}
`
	expected := "true true\n" +
		"true true\n" +
		"false false\n" +
		"false false false false\n" +
		"false false\n" +
		"5 false false\n" +
		"false\n" +
		"2 false false true\n"

	var sb strings.Builder
	_, err := lang.EvalProgram(prog, []lang.InputFile{}, []string{}, &sb, false)
	if err != nil {
		t.Fatalf("unexpected error: %v (output so far %q)", err, sb.String())
	}
	if sb.String() != expected {
		t.Fatalf("contains disagrees with ==\nexpected:\n%s\ngot:\n%s", expected, sb.String())
	}
}
