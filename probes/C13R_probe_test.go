package main

import (
	"fmt"
	"strings"
	"testing"

	lang "github.com/alligator/jqawk/src"
)

// runs a program without input and renders its stdout plus its outcome
func demoC13RRun(src string) string {
	var sb strings.Builder
	_, err := lang.EvalProgram(src, nil, nil, &sb, false)
	if err != nil {
		return sb.String() + fmt.Sprintf("<error: %v>", err)
	}
	return sb.String()
}

// C13: a string literal, in either quote style, denotes exactly its
// characters, with \n, \t and \\ as the only escapes. `\\` stands for one
// backslash wherever it occurs in the literal, the end included.
func TestDemoC13R(t *testing.T) {
	bs := `\`
	cases := []struct {
		body string // the characters between the quotes
		want string // the string denoted
	}{
		{`a` + bs + bs + `b`, `a\b`},                  // \\ in the middle
		{bs + bs + `ab`, `\ab`},                       // \\ at the start
		{`ab` + bs + bs, `ab\`},                       // \\ at the end
		{`C:` + bs + bs + `dir` + bs + bs, `C:\dir\`}, // a directory name
		{bs + bs, `\`},                                // nothing but \\
		{bs + `t` + bs + bs, "\t" + `\`},              // another escape, then \\ at the end
	}
	for _, c := range cases {
		for _, quote := range []string{`"`, `'`} {
			src := "BEGIN { s = " + quote + c.body + quote + "; print s; print s.length() }"
			want := fmt.Sprintf("%s\n%d\n", c.want, len(c.want))
			if got := demoC13RRun(src); got != want {
				t.Errorf("program %s:\n got  %q\n want %q", src, got, want)
			}
		}
	}

	// the same literal as an object key and as a computed member
	src := `BEGIN { o = {"k` + bs + bs + `": 1}; print o['k` + bs + bs + `'] }`
	if got, want := demoC13RRun(src), "1\n"; got != want {
		t.Errorf("program %s:\n got  %q\n want %q", src, got, want)
	}
}
