package main

import (
	"encoding/json"
	"flag"
	"os"
	"path/filepath"
	"reflect"
	"testing"

	cli "github.com/alligator/jqawk/cli"
)

// The JSON written by -o (to a file and to stdout) by a program that does not
// touch the document must be valid JSON and equal to the input, for every
// string - including strings and keys that contain '%'.
func TestDemoC04D(t *testing.T) {
	input := `{
  "plain": [1, 2.5, -0.125, 1e21, null, true, false, [], {}],
  "discount": "10% off",
  "query": "a%20b%2Fc?x=%d&y=%s",
  "100%": {"nested%v": ["%", "%%", "50%!"]},
  "escapes": "tab\t quote\" backslash\\ nl\n é世界 😀"
}`
	var want interface{}
	if err := json.Unmarshal([]byte(input), &want); err != nil {
		t.Fatal(err)
	}

	dir := t.TempDir()
	inPath := filepath.Join(dir, "in.json")
	if err := os.WriteFile(inPath, []byte(input), 0o644); err != nil {
		t.Fatal(err)
	}

	// drive the real command line entry point in-process
	runCli := func(args ...string) (int, string) {
		oldArgs, oldFlags, oldStdout := os.Args, flag.CommandLine, os.Stdout
		defer func() { os.Args, flag.CommandLine, os.Stdout = oldArgs, oldFlags, oldStdout }()

		capPath := filepath.Join(dir, "stdout.txt")
		capFile, err := os.Create(capPath)
		if err != nil {
			t.Fatal(err)
		}
		os.Stdout = capFile
		flag.CommandLine = flag.NewFlagSet("jqawk", flag.ContinueOnError)
		os.Args = append([]string{"jqawk"}, args...)

		code := cli.Run("demo")

		capFile.Close()
		captured, err := os.ReadFile(capPath)
		if err != nil {
			t.Fatal(err)
		}
		return code, string(captured)
	}

	check := func(what string, text []byte) {
		var got interface{}
		if err := json.Unmarshal(text, &got); err != nil {
			t.Errorf("%s: -o did not write valid JSON: %v\n%s", what, err, text)
			return
		}
		if !reflect.DeepEqual(got, want) {
			t.Errorf("%s: -o output is not equal to the input\n%s", what, text)
		}
	}

	// -o FILE, with an empty program (reads the document, changes nothing)
	outPath := filepath.Join(dir, "out.json")
	if code, _ := runCli("-o", outPath, "", inPath); code != 0 {
		t.Fatalf("-o FILE: exit code %d", code)
	}
	written, err := os.ReadFile(outPath)
	if err != nil {
		t.Fatal(err)
	}
	check("-o FILE", written)

	// -o - (stdout), with a program that only reads
	code, stdout := runCli("-o", "-", "{ n = $.discount }", inPath)
	if code != 0 {
		t.Fatalf("-o -: exit code %d", code)
	}
	check("-o -", []byte(stdout))
}
