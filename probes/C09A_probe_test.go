package main

import (
	"strings"
	"testing"

	lang "github.com/alligator/jqawk/src"
)

// Assigning past the end of an array pads it with nulls. Every padding slot
// must be its own location: a later assignment to one padding slot must change
// exactly that slot and nothing else in the array / input document.
func TestDemoC09A(t *testing.T) {
	run := func(prog string, json string) string {
		t.Helper()
		files := []lang.InputFile{{Name: "<demo>", Reader: strings.NewReader(json)}}
		var sb strings.Builder
		_, err := lang.EvalProgram(prog, files, nil, &sb, false)
		if err != nil {
			t.Fatalf("unexpected error running %q: %v", prog, err)
		}
		return sb.String()
	}

	// 1. $-path into the input document: grow xs from 1 to 5 elements (gap of
	// three padding nulls), then write one of the padded slots.
	got := run(`{ $.xs[4] = 9; $.xs[2] = 7; print $.xs; print $.other }`,
		`[{ "xs": [1], "other": [null, null] }]`)
	want := "[1, null, 7, null, 9]\n[null, null]\n"
	if got != want {
		t.Errorf("input document: got %q, want %q", got, want)
	}

	// 2. plain variable, auto-created array, ++ on a padded slot
	got = run(`BEGIN { a[3] = 'x'; a[1]++; print a }`, ``)
	want = "[null, 1, null, \"x\"]\n"
	if got != want {
		t.Errorf("variable: got %q, want %q", got, want)
	}

	// 3. nested: padded slots that later become containers must stay distinct
	got = run(`BEGIN { m[2].k = 1; m[0] = { j: 2 }; print m }`, ``)
	want = "[{\"j\": 2}, null, {\"k\": 1}]\n"
	if got != want {
		t.Errorf("nested: got %q, want %q", got, want)
	}
}
