package main

import (
	"strings"
	"testing"

	lang "github.com/alligator/jqawk/src"
)

// runs a BEGIN-only program and returns what it printed, with a runtime error
// (if any) appended as "ERR: <message>"
func demoC15GRun(prog string) string {
	var sb strings.Builder
	_, err := lang.EvalProgram(prog, nil, nil, &sb, false)
	out := sb.String()
	if err != nil {
		out += "ERR: " + err.Error()
	}
	return out
}

// push appends ONE plain value; a later index write to that slot must change
// that slot of that array and nothing else (ideal list).
func TestDemoC15G(t *testing.T) {
	cases := []struct {
		name, prog, want string
	}{
		{
			// a[5] reads past the end of a (null). The pushed null must be a plain
			// element of b: writing b[0] changes b and leaves a alone.
			name: "push of a past-the-end read, then index write",
			prog: `BEGIN {
				a = [1, 2]; b = []
				b.push(a[5])
				print a.length(), b.length(), b
				b[0] = 7
				print a.length(), a
				print b.length(), b
				print b.pop(), b.length(), a.length()
			}`,
			want: "2 1 [null]\n2 [1, 2]\n1 [7]\n7 0 2\n",
		},
		{
			// same through a negative index and through ++
			name: "negative index write and increment on the pushed slot",
			prog: `BEGIN {
				a = [1, 2]; b = [0]
				b.push(a[2])
				b[-1] = 5
				print a, b
				b[1]++
				print a, b
			}`,
			want: "[1, 2] [0, 5]\n[1, 2] [0, 6]\n",
		},
		{
			// a missing member of an object, pushed and then overwritten
			name: "push of a missing object member, then index write",
			prog: `BEGIN {
				o = {k: 1}; b = []
				b.push(o.missing)
				b[0] = 7
				print o, b
			}`,
			want: "{\"k\": 1} [7]\n",
		},
		{
			// characters of a string pushed one by one, then one is replaced
			name: "push of string characters, then index write",
			prog: `BEGIN {
				s = 'hello'; b = []
				b.push(s[0]); b.push(s[1])
				b[0] = 'J'
				print b, s
			}`,
			want: "[\"J\", \"e\"] hello\n",
		},
	}

	for _, tc := range cases {
		got := demoC15GRun(tc.prog)
		if got != tc.want {
			t.Errorf("%s:\n got: %q\nwant: %q", tc.name, got, tc.want)
		}
	}
}
