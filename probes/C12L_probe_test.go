package main

import (
	"io"
	"strings"
	"testing"

	lang "github.com/alligator/jqawk/src"
)

// Property: a runtime fault confined to one line is reported on that line, the
// quoted text is that line, and the column falls inside the offending
// construct -- for every evaluated expression, including the expressions the
// parser synthesises for compound assignments (a /= b is run as a = a / b).
func TestDemoC12L(t *testing.T) {
	progs := []struct {
		name      string
		src       string
		construct string // the offending construct, on one line
	}{
		{
			"plain division, control",
			"BEGIN {\n  total = 10\n  count = 0\n  total = total / count\n}\n",
			"total / count",
		},
		{
			"compound division of a variable by an unset variable",
			"# café totals\nBEGIN {\n  total = 10\n\n  total /= count\n}\n",
			"total /= count",
		},
		{
			"compound division of a member in a function called from END",
			"function avg(o) {\r\n  o.sum /= o.n\r\n  return o.sum\r\n}\r\nEND {\r\n  print avg({ sum: 4, n: 0 })\r\n}\r\n",
			"o.sum /= o.n",
		},
		{
			"compound division of the last element through a negative index",
			"BEGIN { a = [1, 2, 3] }\nBEGIN {\n  a[-1] /= \"zero\"\n}\n",
			"a[-1] /= \"zero\"",
		},
	}

	for _, p := range progs {
		_, err := lang.EvalProgram(p.src, nil, nil, io.Discard, false)
		if err == nil {
			t.Fatalf("%s: expected a runtime error", p.name)
		}
		rerr, ok := err.(lang.RuntimeError)
		if !ok {
			t.Fatalf("%s: expected a RuntimeError, got %T: %v", p.name, err, err)
		}
		if rerr.Message != "divide by zero" {
			t.Fatalf("%s: unexpected message %q", p.name, rerr.Message)
		}

		lines := strings.Split(p.src, "\n")
		if rerr.Line < 1 || rerr.Line > len(lines) {
			t.Fatalf("%s: line %d is outside the program (%d lines)", p.name, rerr.Line, len(lines))
		}
		if lines[rerr.Line-1] != rerr.SrcLine {
			t.Errorf("%s: reported line %d, which is %q, but quoted %q",
				p.name, rerr.Line, lines[rerr.Line-1], rerr.SrcLine)
		}

		start := strings.Index(p.src, p.construct)
		if start < 0 {
			t.Fatalf("%s: bad test, construct not in program", p.name)
		}
		wantLine := 1 + strings.Count(p.src[:start], "\n")
		colStart := start - (strings.LastIndex(p.src[:start], "\n") + 1)
		colEnd := colStart + len(p.construct)
		if rerr.Line != wantLine {
			t.Errorf("%s: fault is on line %d (%q), reported on line %d (%q)",
				p.name, wantLine, lines[wantLine-1], rerr.Line, rerr.SrcLine)
		} else if rerr.Col < colStart || rerr.Col >= colEnd {
			t.Errorf("%s: column %d is outside the offending construct %q (columns %d..%d)",
				p.name, rerr.Col, p.construct, colStart, colEnd-1)
		}
	}
}
