package main

import (
	"strings"
	"testing"

	lang "github.com/alligator/jqawk/src"
)

// Property clause: "sharing without a cycle is printed in full".
//
// The same object is reachable twice from the printed value, but never from
// itself, so no <circular reference> marker may appear and the rendering must
// be JSON equal to the value.
func TestDemoC17A(t *testing.T) {
	cases := []struct {
		name     string
		prog     string
		json     string
		expected string
	}{
		{
			name:     "object shared by two array elements",
			prog:     `BEGIN { s = {k: 1}; a = [s, s]; print a }`,
			json:     `[]`,
			expected: "[{\"k\": 1}, {\"k\": 1}]\n",
		},
		{
			name:     "object shared by two members of an object",
			prog:     `BEGIN { s = {k: 1}; o = {}; o.x = s; o.y = s; print o }`,
			json:     `[]`,
			expected: "{\"x\": {\"k\": 1}, \"y\": {\"k\": 1}}\n",
		},
		{
			name:     "input record referenced twice from one container",
			prog:     `{ pair = {}; pair.first = $; pair.second = $; print pair }`,
			json:     `[{"id": 7}]`,
			expected: "{\"first\": {\"id\": 7}, \"second\": {\"id\": 7}}\n",
		},
		{
			// a real cycle must still be cut exactly at the point of recurrence
			name:     "real cycle next to a shared object",
			prog:     `BEGIN { s = {k: 1}; o = {}; o.me = o; o.x = s; o.y = s; print o }`,
			json:     `[]`,
			expected: "{\"me\": <circular reference>, \"x\": {\"k\": 1}, \"y\": {\"k\": 1}}\n",
		},
	}

	for _, tc := range cases {
		var sb strings.Builder
		files := []lang.InputFile{{Name: "<demo>", Reader: strings.NewReader(tc.json)}}
		if _, err := lang.EvalProgram(tc.prog, files, nil, &sb, false); err != nil {
			t.Fatalf("%s: unexpected error: %v", tc.name, err)
		}
		if sb.String() != tc.expected {
			t.Errorf("%s:\n  program:  %s\n  expected: %q\n  got:      %q", tc.name, tc.prog, tc.expected, sb.String())
		}
	}
}
