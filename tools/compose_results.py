#!/usr/bin/env python3
"""Composes seeded/RESULTS.tsv from the logs of the individual corpus runs (each line: id, property, verdict, fired).
first = verdict of the first run of that change with the checks as they were then; after = verdict of the
latest re-run after the checks were strengthened (empty when the first run already caught it)."""
import os, sys, re
logs_first = ['/verif/seeded/runlogs/seeded_round123.tsv', '/verif/seeded/runlogs/run_seeded_r4.log', '/verif/seeded/runlogs/run_seeded_r5.log', '/verif/seeded/runlogs/run_seeded_r6.log', '/verif/seeded/runlogs/run_seeded_r7.log', '/verif/seeded/runlogs/run_seeded_r8.log', '/verif/seeded/runlogs/run_seeded_r8d.log', '/verif/seeded/runlogs/run_seeded_r9.log']
logs_after = ['/verif/seeded/runlogs/seeded_after.tsv', '/verif/seeded/runlogs/seeded_r5_after.tsv', '/verif/seeded/runlogs/run_seeded_r7.log', '/verif/seeded/runlogs/reverts.tsv', '/verif/seeded/runlogs/seeded_final_after.tsv', '/verif/seeded/runlogs/run_seeded_r8b.log', '/verif/seeded/runlogs/run_seeded_r8c.log', '/verif/seeded/runlogs/run_seeded_r8e.log', '/verif/seeded/runlogs/run_seeded_r9b.log']
def rd(f):
    out = []
    if not os.path.exists(f): return out
    for l in open(f):
        p = l.rstrip('\n').split('\t')
        if len(p) >= 3 and re.match(r'^(C\d\d[A-Z]|revert-[0-9a-f]{7})$', p[0]):
            out.append((p[0], p[1], p[2], p[3].strip() if len(p) > 3 else ''))
    return out
first, after = {}, {}
for f in logs_first:
    for id, prop, v, fired in rd(f):
        if id not in first: first[id] = (prop, v, fired)
        else: after[id] = (prop, v, fired)
for f in logs_after:
    for id, prop, v, fired in rd(f):
        if id in first and (f != '/verif/seeded/runlogs/run_seeded_r7.log' or first[id] != (prop, v, fired)):
            after[id] = (prop, v, fired)
        elif id not in first:
            first[id] = (prop, v, fired)
present = set(d for d in os.listdir('/verif/seeded') if re.match(r'^C\d\d[A-Z]$', d))
rows = []
for id in sorted(first, key=lambda x: (x.startswith('revert'), x)):
    if not id.startswith('revert') and id not in present: continue
    prop, v, fired = first[id]
    a = after.get(id)
    if id.startswith('revert') and a is not None:
        # canaries: only the latest run counts (earlier logs predate the marking of reverts that no longer apply)
        prop, v, fired = a
        a = None
    av = '' if (a is None or (v == 'CAUGHT' and a[1] == 'CAUGHT')) else a[1]
    rows.append((id, prop, v, av, (a[2] if a and a[2] else fired)))
missing = sorted(present - set(first))
with open('/verif/seeded/RESULTS.tsv', 'w') as o:
    o.write('id\tproperty\tfirst_run\tafter_strengthening\tchecks_that_fire\n')
    for r in rows: o.write('\t'.join(r) + '\n')
print(len(rows), 'rows; seeds without a recorded run:', missing)
caught_first = sum(1 for r in rows if not r[0].startswith('revert') and r[2] == 'CAUGHT')
seeds = [r for r in rows if not r[0].startswith('revert')]
still = [r[0] for r in seeds if r[2] != 'CAUGHT' and r[3] != 'CAUGHT']
print('seeds', len(seeds), 'caught at first run', caught_first, 'not caught after strengthening:', still)
print('canaries', [(r[0], r[2], r[3]) for r in rows if r[0].startswith('revert') and 'CAUGHT' not in (r[2], r[3])])
