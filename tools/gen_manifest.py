#!/usr/bin/env python3
"""Regenerates /verif/MANIFEST.json from the table below (kept in one place so the manifest stays valid)."""
import json, subprocess
props = [json.loads(l)['id'] for l in open('/verif/properties.jsonl')]
TB = ("trusted: govc's SSA->SMT semantics (DESIGN.md 2.3, 8), go/ssa+go/types, the SMT solvers, Go memory safety without unsafe, "
      "computed write sets, assumed library models and spec axioms listed in the evidence; int arithmetic mathematical; termination not proved")
L = "  What composes these per-function facts into the whole-program reading of the property is a paper lemma of DESIGN.md section 5, not machine-checked."
claimed = {
 'C01': dict(text="Unbounded deductive proof over the real code of lexer, parser, evaluator, value model and native methods (about 100 functions under contract): (a) safety -- no nil dereference, index/slice out of range, failed type assertion, integer division by zero, write to a nil map, nor any reachable explicit panic; (b) error funnel -- lexer/parser return only syntax errors, the evaluator only runtime errors or control-flow sentinels, EvalProgram only syntax/runtime/JSON errors; next and exit are proved consumed by the drivers (also when raised inside a rule pattern or a root selector). Type invariants (well-formed values, tokens, AST nodes, frames) are assumed on load and proved at every store.",
             note=TB + "; break/continue/return escaping a rule body is excluded by the parser's static scoping facts (proved: flags restored, break needs loop context, return needs function context) composed by lemma L1, not by a machine-checked whole-AST invariant; Go stack exhaustion by deep recursion and out-of-memory are outside the logic; wf(Value) of a zero Cell handed to copyValue is the documented gap of DESIGN.md 4/C01." + L,
             design="4 C01"),
 'C02': dict(text="Unbounded deductive proof of the scheduling steps on the real drivers: readRules partitions the rules by kind (each list holds only rules of its kind); evalRules runs a rule's body iff its pattern is absent or was just evaluated truthy, stops the list on next (also from a pattern) and never returns next; evalPatternRules binds $ to element i and $index to i for each element of an array root (in slice order) and to the root itself otherwise; EvalProgram gives every BEGIN/END rule a fresh null $, runs the pattern rules on the selected root cell, consumes next/exit at every level.",
             note=TB + "; order preservation inside each rule list and the nesting files -> values -> selectors -> BEGINFILE/pattern/ENDFILE are read off the loop structure (range loops in source order), not stated as a trace postcondition; $file binding is not under contract." + L,
             design="4 C02"),
 'C03': dict(text="Proof, relative to an assumed contract of encoding/json.Decoder, of jqawk's own decode loop: a file is abandoned only when Decode returned io.EOF (asserted before the next file is opened and at the entry of the END rules), rules run only after a successful Decode, and a JSON error is returned only for a Decode error other than io.EOF.",
             note=TB + "; incremental consumption, independence from read chunking and the behaviour at each truncation point are properties of encoding/json and the reader and are NOT decided (DESIGN.md 7); the decoder is an unconstrained external here (any error sequence).",
             design="4 C03"),
 'C04': dict(text="Unbounded deductive proof of the local structure preservation of the JSON conversions on the real code: NewValue maps each decoded Go kind to the value of that kind with the same payload/length; toGoValueInterval maps each value kind back (arrays to a NON-NIL list of the same length, objects to a fresh map, null/unset to nil), rejects functions/regexes, rejects a container that recurs on the ancestor path (and only consults the extended path for children), and propagates every error.",
             note=TB + "; element-wise correspondence for []any/object members and the document-level round trip need structural induction (lemma L4) and encoding/json's Marshal/Unmarshal round trip (assumed); termination on cyclic values is lemma L5." + L,
             design="4 C04"),
 'C05': dict(text="Unbounded deductive proof that the coercions (number, string form, truthiness), Compare, ! + - ++ --, and every binary operator of evalBinaryExpr compute exactly the tables of DESIGN.md section 3 for every operand kind and every double: concatenation vs addition, - * /, % on truncated operands, divide/modulo error iff the (truncated) divisor is zero, comparison rows incl. unset and null ordering and container errors, short-circuit && || (right operand evaluated iff needed), is, ~ / !~ incl. invalid-pattern errors.",
             note=TB + "; float64 operations are uninterpreted with IEEE facts first and SMT FloatingPoint when needed; strconv.ParseFloat/FormatFloat and regexp are assumed library contracts; operand values are the cells returned by the operand evaluations, read in the final state.",
             design="4 C05, 3"),
 'C06': dict(text="Unbounded deductive proof of the three facts from which precedence-climbing yields the fully parenthesised grouping: (I1) NewParser's rule table equals the documented ladder (precedence and prefix/infix parselet for each of the 36 tokens, nothing else); (I2) expressionWithPrec returns only when the operator under the cursor binds looser than the requested level; (I3) binary parses its right operand one level tighter (same level for the right-associative compound assignments), assign at assignment level, unary at unary level, and the nodes built have the documented shape.",
             note=TB + "; that I1-I3 imply the grouping for every expression is lemma L6 (standard precedence-climbing argument), not machine-checked." + L,
             design="4 C06"),
 'C07': dict(text="Unbounded deductive proof of the per-construct protocol of evalStatement on the real code: an if branch / while body / for body runs only directly after its own condition evaluated truthy (else-branch: falsy), the loop continues and the for post-expression runs only after a completed or continued iteration, errors of every clause are returned, and the parser restores the loop/function context after every construct and accepts break/continue only in loop context, return only in function context.",
             note=TB + "; for-in element/index binding and 'exactly once in order' are read off the range loops; equivalence with a reference semantics for arbitrary nesting is lemma L7." + L,
             design="4 C07"),
 'C08': dict(text="Unbounded deductive proof of the frame-stack discipline: every evaluation function returns with exactly the frame stack it was called with, on every path (success, sentinel, fault); pushFrame/popFrame contracts; callFunction binds every parameter in a fresh cell of a fresh frame, runs the body there, yields the returned value / null exactly as the body ended; arguments are evaluated into fresh copies.",
             note=TB + "; the precise lookup order of getVariable along the frame chain is not under contract." + L,
             design="4 C08"),
 'C09': dict(text="Unbounded deductive proof of the member store/read contracts: SetMember changes exactly the addressed location (negative indices, padding with pairwise distinct fresh nulls, old cells kept, 1Mi fill limit, object key set grows by exactly the key) and nothing else (frame); GetMember modifies nothing at all (reads never change the document) and returns the live cell / a detached null; copyValue writes only the target cell; compound assignment desugars to the same target node twice.",
             note=TB + "; aliasing of array values through copied slice headers (DESIGN.md section 6, D7b) is outside these contracts." + L,
             design="4 C09"),
 'C10': dict(text="Determinism is obtained from functional contracts under a nondeterministic map-iteration semantics (range over a map is modelled as an arbitrary order): the places that iterate objects (print rendering, for-in, JSON conversion) are proved to visit keys in sorted order, and three structural obligations decided on the SSA of the current tree: package state of package lang is written only by the four lazy prototype initialisers, maps are ranged over only in the six functions whose contracts make the order unobservable, and package lang starts no goroutine and calls nothing in time, math/rand, os, runtime, reflect, unsafe, sync.",
             note=TB + "; 'in a fresh process' is outside the logic; that the prototype singletons are initialised idempotently is trusted (trusted contracts getXPrototype); since fix db6d889 member lookups hand out copies of prototype cells, so programs cannot write into them (GetMember modifies nothing is proved).",
             design="4 C10"),
 'C11': dict(text="Unbounded deductive proof with a ghost fault latch: every fault creation sets the latch, every evaluator function and helper requires it clear and ensures it is set exactly when a fault is returned, and every output primitive requires it clear -- so an error dropped in any syntactic position, or output after a fault, fails an obligation. Syntax part: Parse produces no output and EvalProgram returns its error before any evaluation; static rejections (break/continue/return context, assignment targets) are postconditions of the parser.",
             note=TB + "; errors that the code ignores by design without creating a fault value (strconv.ParseFloat in coercions) do not set the latch.",
             design="4 C11"),
 'C12': dict(text="Unbounded deductive proof, for every program text and byte offset, that Lexer.GetLineAndCol returns exactly line N of the text, its 1-based number and the byte column of the offset, that the three error constructors attach exactly that, that the lexer reports an illegal character at its own offset and that compound-assignment desugaring keeps the operator's position.",
             note=TB + "; which token a runtime error is attached to ('inside the offending construct') is not decided (DESIGN.md 7).",
             design="4 C12"),
 'C13': dict(text="Unbounded deductive proof of the lexical clauses on the real lexer (whitespace/comments never cross a newline, newline is a token, numerals never absorb an operator, whole-word keywords, strings are the bytes between identical quotes, maximal munch) and of the parser's newline handling (advance drops newline tokens and records them; a bare return and a closing brace end their statement).",
             note=TB + "; unicode.IsLetter/IsDigit on non-ASCII runes are uninterpreted; the relational clauses (two layouts of one token sequence behave identically) are 2-safety properties and are NOT decided (DESIGN.md 7).",
             design="4 C13"),
 'C14': dict(text="Unbounded deductive proof of the wrapper facts expressible on one run of cli.Run (external flag/os/isatty calls unconstrained): it returns 0 or 1; an interpreter error gives 1; the selectors are handed to EvalProgram in the order given, without fuzzing, with one input per file path; JSON is serialised only for a single input; -o FILE writes exactly the string -o - prints into a truncating os.Create; and in EvalProgram each decoded value is processed through exactly one root per selector (or itself).",
             note=TB + "; the equivalence clauses (-f vs inline text, stdin vs file, -r E vs BEGINFILE { $ = E }, binary vs library) relate two different runs or two different programs and are NOT decidable by a contract on one function (DESIGN.md 7); flag, os, isatty, pprof are unconstrained externals; -dbg-ast/-dbg-lex/-version paths are trusted (outside the property).",
             design="4 C14"),
 'C15': dict(text="Unbounded deductive proof of the array methods against list semantics on the real closures: length, push (appends exactly one fresh cell, keeps the others), pop/popfirst (remove last/first, null when empty), contains (true iff some element == the argument, scanning in order), sort (fresh array of fresh copies via the stable library sort, receiver untouched), index resolution of GetMember/SetMember, and that the receiver a method runs on is the one bound when the method was looked up, whatever the arguments evaluate.",
             note=TB + "; the ordering produced by slices.SortStableFunc is an assumed library contract; sequences of operations compose by lemma L15." + L,
             design="4 C15"),
 'C16': dict(text="Unbounded deductive proof of the string/number/object methods and num(): byte length, key count, lower/upper (library image), floor/ceil/round as round-to-integral toward -inf/+inf/nearest-ties-away, pluck (fresh object; each requested key looked up among the receiver's own members only and stored in a fresh cell), num() on numeric/non-numeric strings, neutral results on wrong receivers.",
             note=TB + "; split() and json() are not under a functional contract; strings.ToLower/ToUpper, strconv.ParseFloat are assumed library contracts.",
             design="4 C16"),
 'C17': dict(text="Unbounded deductive proof of the rendering rules on prettyStringInteral: strings raw or quoted, numbers as FormatFloat 'f' -1, words for booleans and null, recurrence on the ancestor path is marked and children are rendered with exactly the extended path, object keys are visited in sorted order.",
             note=TB + "; the concatenated shape of arrays/objects and JSON re-readability follow by structural induction (lemma L17); strconv.FormatFloat is an assumed library contract." + L,
             design="4 C17"),
 'C18': dict(text="Unbounded deductive proof of printf step by step on the real nativePrintf: every byte/piece appended is justified by the directive under the cursor (%s/%f/%v with the argument of the right kind, padded per width sign and leading zero of THIS directive), unknown directives/dangling %/bad widths are errors, the single write happens only on success and writes exactly the builder.",
             note=TB + "; that the steps compose to 'the format with each directive replaced' is lemma L18." + L,
             design="4 C18"),
 'C19': dict(text="Unbounded deductive proof on the real code that match tries cases in source order and stops at the first match (no later pattern or body is evaluated), yields the expression body's value / null for a block body / null without match, and that evalCaseMatch reports failure only after every alternative was tried.",
             note=TB + "; the pattern-matching relation itself (literal ==, identifier binds, arrays position-wise) is not stated as a postcondition." + L,
             design="4 C19"),
 'C20': dict(text="Unbounded deductive proof of the three interpreter-level limits: pushFrame refuses exactly when depth+1 exceeds callDepthLimit (a constant between 1000 and 8192, every frame counted, stack unchanged on refusal), SetMember refuses a fill beyond index 2^20 before allocating and otherwise succeeds, printf refuses |width| > 65536 before padding.",
             note=TB + "; that 4096 frames fit the Go stack, memory use below the limits and the JSON decoder's nesting limit are outside the logic (DESIGN.md 7).",
             design="4 C20"),
}
na = {
}
hook_commits = subprocess.run("git -C /repo log --format=%H --grep='^verif:'", shell=True, capture_output=True, text=True).stdout.split()
m = {
 "version": 1,
 "setup_cmd": "cd /verif/govc && GOFLAGS=-mod=vendor GOPROXY=off GOSUMDB=off GOTOOLCHAIN=local go build -o /verif/bin/govc .",
 "hooks": {"guard": "verif",
           "enable": "govc loads /repo with build tag verif (go/packages BuildFlags -tags=verif); the guarded files contain comments only",
           "baseline_off_cmd": "cd /repo && GOFLAGS=-mod=mod GOPROXY=off GOSUMDB=off go test -json -vet=off -count=1 -timeout 25m ./...",
           "source_commits": hook_commits, "add_only": True},
 "engines": [{"name": "govc", "path": "/verif/govc", "serves_properties": sorted(claimed),
              "kind_free_text": "verification-condition generator over go/ssa (naive form) of /repo's working tree; contracts (requires/ensures/modifies/loop invariants/spec functions) in the guarded comment-only file src/zz_contracts_verif.go; one SMT query per obligation, discharged by z3 5.1.0 / z3 4.8.12 / cvc5 1.0.3"}],
 "checks": [], "not_applicable": [],
 "notes": "Contract-based deductive verification; see DESIGN.md. Violations are reported per failed obligation; known findings in known_findings.json."
}
for p in props:
    if p in claimed:
        c = claimed[p]
        m["checks"].append({
            "property_id": p,
            "quick_cmd": f"bin/govc check --property {p} --tier quick",
            "thorough_cmd": f"bin/govc check --property {p} --tier thorough",
            "evidence_file": f"/verif/evidence/{p}.json",
            "replay_cmd_template": "cat {path}",
            "engine": "govc",
            "level_claimed": {"category": "proof", "text": c['text'], "design_ref": c['design']},
            "level_note": c['note'],
            "technique": "contract-based deductive verification: weakest-precondition style VCs generated from go/ssa of the real code, contracts as structured comments, discharged by z3/cvc5",
        })
    else:
        m["not_applicable"].append({"property_id": p, "reason": na.get(p, "check not built yet (work in progress; see DESIGN.md section 4)")})
json.dump(m, open('/verif/MANIFEST.json', 'w'), indent=1)
print("claimed:", sorted(claimed))
