#!/usr/bin/env python3
"""Regenerates /verif/MANIFEST.json from the table below (kept in one place so the manifest stays valid)."""
import json, subprocess
props = [json.loads(l)['id'] for l in open('/verif/properties.jsonl')]
TB = ("trusted: govc's SSA->SMT semantics (DESIGN.md 2.3, 8), go/ssa+go/types, the SMT solvers, Go memory safety without unsafe, "
      "computed write sets, assumed library models and spec axioms listed in the evidence; int arithmetic mathematical; termination not proved")
claimed = {
 'C12': dict(text="Unbounded deductive proof, for every program text and byte offset, that Lexer.GetLineAndCol returns exactly line N of the text, its 1-based number and the byte column of the offset (loop invariants + postconditions over the real code, discharged by z3/cvc5).",
             note=TB + "; only the position->(line,col,text) computation and the error constructors are under contract: which token an error is attached to ('inside the offending construct') is not decided (DESIGN.md 7).",
             design="4 C12"),
 'C13': dict(text="Unbounded deductive proof of the lexical clauses on the real lexer: whitespace/comment skipping never crosses a newline, a newline is always a token, numerals are digits with an optional fraction and never absorb an operator, keywords are recognised only on the whole maximal identifier run, string tokens are exactly the bytes between identical quotes, operators by maximal munch (postconditions of Lexer.skipWhitespace/number/identifier/string/Regex/Next for every source text and position).",
             note=TB + "; unicode.IsLetter/IsDigit on non-ASCII runes are uninterpreted; the relational clauses (two layouts of the same token sequence behave identically; ';' interchangeable with newline) are relations between two parser runs and are NOT decided (DESIGN.md 7) -- only the enabling lexer facts are proved.",
             design="4 C13"),
}
na = {}
hook_commits = subprocess.run("git -C /repo log --format=%H --grep='^verif:'", shell=True, capture_output=True, text=True).stdout.split()
m = {
 "version": 1,
 "setup_cmd": "cd /verif/govc && GOFLAGS=-mod=vendor GOPROXY=off GOSUMDB=off GOTOOLCHAIN=local go build -o /verif/bin/govc .",
 "hooks": {"guard": "verif",
           "enable": "govc loads /repo with build tag verif (go/packages BuildFlags -tags=verif); the guarded files contain comments only",
           "baseline_off_cmd": "cd /repo && GOFLAGS=-mod=mod GOPROXY=off GOSUMDB=off go test -json -vet=off -count=1 -timeout 25m ./...",
           "source_commits": hook_commits, "add_only": True},
 "engines": [{"name": "govc", "path": "/verif/govc", "serves_properties": sorted(claimed),
              "kind_free_text": "verification-condition generator over go/ssa (naive form) of /repo's working tree; contracts (requires/ensures/modifies/loop invariants/spec functions) in the guarded comment-only file src/zz_contracts_verif.go; one SMT query per obligation, discharged by z3 5.1.0 / z3 4.8.12 / cvc5 1.0.3"}],
 "checks": [], "not_applicable": [],
 "notes": "Contract-based deductive verification; see DESIGN.md. Violations are reported per failed obligation; known findings in known_findings.json."
}
for p in props:
    if p in claimed:
        c = claimed[p]
        m["checks"].append({
            "property_id": p,
            "quick_cmd": f"bin/govc check --property {p} --tier quick",
            "thorough_cmd": f"bin/govc check --property {p} --tier thorough",
            "evidence_file": f"/verif/evidence/{p}.json",
            "replay_cmd_template": "cat {path}",
            "engine": "govc",
            "level_claimed": {"category": "proof", "text": c['text'], "design_ref": c['design']},
            "level_note": c['note'],
            "technique": "contract-based deductive verification: weakest-precondition style VCs generated from go/ssa of the real code, contracts as structured comments, discharged by z3/cvc5",
        })
    else:
        m["not_applicable"].append({"property_id": p, "reason": na.get(p, "check not built yet (work in progress; see DESIGN.md section 4)")})
json.dump(m, open('/verif/MANIFEST.json', 'w'), indent=1)
print("claimed:", sorted(claimed))
