#!/bin/bash
# Runs the property checks against every seeded change (seeded/<id>/patch.diff) and every reverted fix,
# in a scratch worktree each, and writes seeded/RESULTS.tsv: id, own property verdict, other properties that fire.
cd /verif
out=seeded/RESULTS.tsv
props="${PROPS:-C01 C02 C04 C05 C06 C07 C08 C09 C11 C12 C13 C15 C16 C17 C18 C19 C20}"
: > $out.tmp
run() { # id, what, own
  id=$1; what=$2; own=$3
  pp="$props"; [ -z "$PROPS" ] && pp="$own"
  all=$(MT_LINES=0 tools/try_mutant.sh "$what" $pp 2>&1)
  res=$(echo "$all" | grep "^== " )
  fired=$(echo "$res" | grep "exit=1" | sed 's/== \(C[0-9]*\) exit=1/\1/' | tr '\n' ' ')
  ownv=miss; echo " $fired" | grep -q " $own " && ownv=CAUGHT
  # a fix that later commits rewrote can no longer be reverted mechanically
  echo "$all" | grep -q "REVERT-FAILED\|APPLY-FAILED" && ownv="not-applicable(superseded)"
  echo -e "$id\t$own\t$ownv\t$fired" | tee -a $out.tmp
}
for d in seeded/C*/; do id=$(basename $d); [ -n "$ONLY" ] && [[ ! "$id" =~ $ONLY ]] && continue; run $id $d/patch.diff ${id:0:3}; done
if [ -z "$ONLY" ]; then
while read c p; do run "revert-$c" "revert:$c" $p; done <<'L'
8a968c4 C16
d931e8b C18
0e78e63 C19
a81aa7e C15
067f50f C13
f91b826 C12
9a3b9e9 C11
17cf457 C10
98eb5fb C09
304744a C08
76c54db C06
782bc16 C05
60c9364 C04
6384b0c C03
c85f688 C01
7b7af0a C01
08d653a C01
7330182 C01
cde7c17 C01
86dd33c C14
77d33b6 C15
ae3e1ad C13
7e7b0ce C13
f4f12c6 C11
956d942 C09
99541ae C09
7affb3c C05
2946b4b C05
db6d889 C10
a9edc22 C10
40373e3 C01
fad21fb C01
41d442e C09
8f26b42 C09
1327c37 C20
1102769 C12
c100c32 C14
e9ec943 C11
7e36fb9 C01
2992064 C09
09ce5fb C11
e9b2377 C09
80bcf53 C12
6655474 C14
2879245 C01
f57bba0 C07
cab7a79 C11
3c606c4 C11
dc646d3 C09
0267e27 C11
L
fi
mv $out.tmp $out
