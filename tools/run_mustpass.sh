#!/bin/bash
# Semantics-preserving edits (mustpass/*.diff) must not raise any alarm: runs every claimed property's
# quick check against each of them in a scratch worktree.
cd /verif
props="${PROPS:-C01 C05 C08 C09 C11 C18}"
for f in mustpass/*.diff; do
  res=$(MT_LINES=0 tools/try_mutant.sh $f $props 2>&1 | grep "^== " | grep -v "exit=0" | tr '\n' ' ')
  echo "$(basename $f): ${res:-no alarm}"
done
