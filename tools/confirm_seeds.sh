#!/bin/bash
# Confirms seeded changes produced by sub-agents: for each $SRC/Cxx/CxxY.patch.diff
#  1. applies to a clean scratch worktree of /repo HEAD, builds, and the unedited suite passes;
#  2. the demonstration test fails with the change and passes without it.
# Confirmed ones are copied to /verif/seeded/<CxxY>/ (patch.diff, demo_test.go, meta.json).
export GOFLAGS=-mod=mod GOPROXY=off GOSUMDB=off GOTOOLCHAIN=local
export SRC=${SRC:-/tmp/mut/out}
WT=/tmp/seedcheck
git -C /repo worktree remove --force $WT 2>/dev/null
git -C /repo worktree add -q --detach $WT HEAD || exit 1
cd $WT
for patch in $SRC/${PAT:-C*}/C*.patch.diff; do
  id=$(basename $patch .patch.diff); prop=${id:0:3}
  [ -d /verif/seeded/$id ] && continue
  demo=$SRC/$prop/${id}_demo_test.go
  git checkout -q -- . ; rm -f zz_demo_test.go
  res="id=$id"
  if ! git apply --check $patch 2>/dev/null; then echo "$res APPLY-FAIL"; continue; fi
  # demo on clean tree
  cp $demo zz_demo_test.go
  if go test -vet=off -count=1 -run "TestDemo$id\$" . >/tmp/seedcheck_$id.clean.log 2>&1; then clean=pass; else clean=FAIL; fi
  rm -f zz_demo_test.go; git checkout -q -- .
  git apply $patch
  if ! go build ./... >/tmp/seedcheck_$id.build.log 2>&1; then echo "$res BUILD-FAIL"; continue; fi
  if go test -vet=off -count=1 ./... >/tmp/seedcheck_$id.suite.log 2>&1; then suite=pass; else suite=FAIL; fi
  git checkout -q -- jqawk 2>/dev/null
  cp $demo zz_demo_test.go
  if go test -vet=off -count=1 -run "TestDemo$id\$" . >/tmp/seedcheck_$id.mut.log 2>&1; then mut=PASS; else mut=fail; fi
  rm -f zz_demo_test.go
  echo "$res demo_clean=$clean suite_with_change=$suite demo_with_change=$mut"
  if [ $clean = pass ] && [ $suite = pass ] && [ $mut = fail ]; then
    d=/verif/seeded/$id; mkdir -p $d
    cp $patch $d/patch.diff; cp $demo $d/demo_test.go; cp $demo /verif/probes/${id}_probe_test.go
    python3 - "$id" "$prop" <<'P'
import json,sys,re
id,prop=sys.argv[1],sys.argv[2]
import os; notes=open(os.environ.get('SRC','/tmp/mut/out')+f'/{prop}/NOTES.md').read()
json.dump({"id":id,"property":prop,"source":"independent sub-agent given only the property text and a scratch worktree",
 "confirmed":{"patch_applies_to":"/repo HEAD at confirmation time","suite_passes_with_change":True,"demo_passes_without_change":True,"demo_fails_with_change":True,
  "commands":["git apply patch.diff","go build ./... && go test -vet=off -count=1 ./...","go test -vet=off -count=1 -run TestDemo%s$ ." % id]},
 "notes_file":"NOTES.md (sub-agent's description of what the change needs in order to manifest)"}, open(f'/verif/seeded/{id}/meta.json','w'), indent=1)
open(f'/verif/seeded/{id}/NOTES.md','w').write(notes)
P
  fi
done
git checkout -q -- . ; cd /; git -C /repo worktree remove --force $WT
