#!/bin/bash
# usage: try_mutant.sh <patch.diff | revert:<commit>> <property>...
# Applies a change to a scratch worktree of /repo (outside /repo and /verif), runs the given
# property checks against it with evidence redirected to a scratch dir, prints the verdicts, cleans up.
export GOFLAGS=-mod=mod GOPROXY=off GOSUMDB=off GOTOOLCHAIN=local
what=$1; shift
case "$what" in revert:*|none) ;; *) what=$(realpath "$what");; esac
WT=$(mktemp -d /tmp/mtwt.XXXXXX); rmdir $WT
SC=$(mktemp -d /tmp/mtverif.XXXXXX)
git -C /repo worktree add -q --detach $WT HEAD || exit 2
# the working tree's (possibly uncommitted) contract files are what the checks use
cp /repo/src/zz_contracts_verif.go $WT/src/ 2>/dev/null
[ -f /repo/cli/zz_contracts_verif.go ] && cp /repo/cli/zz_contracts_verif.go $WT/cli/
cd $WT
case "$what" in
  revert:*) git revert --no-commit ${what#revert:} >/dev/null 2>&1 || { echo "REVERT-FAILED"; } ;;
  none) ;;
  *) git apply "$what" || echo "APPLY-FAILED" ;;
esac
cp /verif/known_findings.json $SC/
rc=0
for p in "$@"; do
  out=$(GOVC_VERIF=$SC /verif/bin/govc check --property $p --repo $WT 2>&1); r=$?
  echo "$out" | grep -E "^VIOLATION|^KNOWN|obligations," | sed "s#$SC#<scratch>#g" | head -${MT_LINES:-6}
  [ -n "$MT_VERBOSE" ] && echo "$out" | grep -E "^  (obligation|clause)" | head -20
  echo "== $p exit=$r"
  [ $r -ne 0 ] && rc=1
done
cd /; git -C /repo worktree remove --force $WT; rm -rf $SC
exit $rc
