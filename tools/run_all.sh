#!/bin/bash
# Runs every claimed property's quick check against /repo (refreshing /verif/evidence) and prints one line each.
cd /verif
for i in $(seq -w 1 20); do
  p=C$i
  out=$(bin/govc check --property $p --tier quick 2>&1); r=$?
  echo "$p exit=$r $(echo "$out" | grep "obligations," | tail -1)"
  echo "$out" | grep -E "^VIOLATION|^KNOWN" | cut -c1-220
done
