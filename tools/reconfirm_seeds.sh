#!/bin/bash
# Re-confirms every seeded change against /repo's current HEAD: patch applies, suite passes with it,
# its demonstration fails with it and passes without it.  Output: one line per seed.
export GOFLAGS=-mod=mod GOPROXY=off GOSUMDB=off GOTOOLCHAIN=local
WT=/tmp/seedcheck
git -C /repo worktree remove --force $WT 2>/dev/null
git -C /repo worktree add -q --detach $WT HEAD || exit 1
cd $WT
for d in /verif/seeded/C*/; do
  id=$(basename $d)
  [ -n "$ONLY" ] && [[ ! "$id" =~ $ONLY ]] && continue
  git checkout -q -- . ; rm -f zz_demo_test.go
  if ! git apply --check $d/patch.diff 2>/dev/null; then echo "$id APPLY-FAIL"; continue; fi
  cp $d/demo_test.go zz_demo_test.go
  if go test -vet=off -count=1 -run "TestDemo$id\$" . >/dev/null 2>&1; then clean=pass; else clean=FAIL; fi
  rm -f zz_demo_test.go; git checkout -q -- .
  git apply $d/patch.diff
  if ! go build ./... >/dev/null 2>&1; then echo "$id BUILD-FAIL"; continue; fi
  if go test -vet=off -count=1 ./... >/dev/null 2>&1; then suite=pass; else suite=FAIL; fi
  git checkout -q -- jqawk 2>/dev/null
  cp $d/demo_test.go zz_demo_test.go
  if go test -vet=off -count=1 -run "TestDemo$id\$" . >/dev/null 2>&1; then mut=PASS; else mut=fail; fi
  rm -f zz_demo_test.go
  echo "$id demo_clean=$clean suite_with_change=$suite demo_with_change=$mut"
done
git checkout -q -- . ; cd /; git -C /repo worktree remove --force $WT
